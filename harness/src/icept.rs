//! The transport interceptor: records the storage-operation trace, injects
//! failures, halts the world at a chosen operation (simulated kill), and
//! serialises two actors under an explicit schedule.
use std::collections::HashMap;
use std::path::PathBuf;
use std::sync::atomic::{AtomicBool, AtomicUsize, Ordering::SeqCst};
use std::sync::{Arc, Mutex};

use async_trait::async_trait;
use conserve::transport::hook::{HookCall, HookReply, HookVerb, Interceptor};
use conserve::transport::ErrorKind;
use serde_json::{json, Value};
use tokio::sync::{oneshot, Notify};

use crate::reader::decode_payload;

#[derive(Debug, Default, Clone)]
pub struct Plan {
    /// op index -> error kind to inject
    pub faults: HashMap<usize, ErrorKind>,
    /// halt before this op index
    pub crash_at: Option<usize>,
    /// at this op index (must be a write): create the file empty, then halt
    pub crash_empty_at: Option<usize>,
    /// fail every op whose verb and path match: (verb name, path substring, kind)
    pub fault_match: Vec<(String, String, ErrorKind)>,
    /// independent failure probability per op (x / 1_000_000) with a seed
    pub bernoulli: Option<(u64, u64)>,
    /// restrict random / indexed faults to these verbs (empty = all)
    pub only_verbs: Vec<String>,
    /// (verb, exact path, n, fault): the n-th (from 0) occurrence of this operation suffers
    /// "crash" (halt before it), "crash_empty" (create the file empty, then halt) or an error kind
    pub rules: Vec<(String, String, usize, String)>,
    /// do not wait for detached tasks once the operation has returned: the archive is looked at as it is at that moment
    pub no_quiesce: bool,
    /// slow storage: before the operation with this arrival index, wait this many (virtual) milliseconds
    pub delays: HashMap<usize, u64>,
}

pub fn kind_from_str(s: &str) -> ErrorKind {
    match s {
        "NotFound" => ErrorKind::NotFound,
        "AlreadyExists" => ErrorKind::AlreadyExists,
        "PermissionDenied" => ErrorKind::PermissionDenied,
        _ => ErrorKind::Other,
    }
}

pub fn kind_str(k: ErrorKind) -> &'static str {
    match k {
        ErrorKind::NotFound => "NotFound",
        ErrorKind::AlreadyExists => "AlreadyExists",
        ErrorKind::PermissionDenied => "PermissionDenied",
        _ => "Other",
    }
}

pub fn verb_str(v: HookVerb) -> &'static str {
    match v {
        HookVerb::Read => "Read",
        HookVerb::Write => "Write",
        HookVerb::ListDir => "ListDir",
        HookVerb::CreateDir => "CreateDir",
        HookVerb::Metadata => "Metadata",
        HookVerb::RemoveFile => "RemoveFile",
        HookVerb::RemoveDirAll => "RemoveDirAll",
    }
}

#[derive(Debug)]
struct Waiting {
    actor: usize,
    path: String,
    tx: oneshot::Sender<()>,
}

#[derive(Debug, Default)]
pub struct SchedState {
    waiting: Vec<Waiting>,
    /// number of ops completed per actor
    completed: [usize; 2],
    done: [bool; 2],
}

#[derive(Debug)]
pub struct Shared {
    pub root: PathBuf,
    pub plan: Plan,
    pub trace: Mutex<Vec<Value>>,
    pub op_counter: AtomicUsize,
    pub inflight: AtomicUsize,
    pub halted: AtomicBool,
    pub halt_notify: Notify,
    /// Some(..) when running a two-actor race
    pub sched: Option<Mutex<SchedState>>,
    pub sched_wake: Notify,
    ids: Mutex<HashMap<usize, usize>>,
    rng: Mutex<u64>,
    occurrences: Mutex<HashMap<(String, String), usize>>,
}

impl Shared {
    pub fn new(root: PathBuf, plan: Plan, race: bool) -> Arc<Shared> {
        let seed = plan.bernoulli.map(|b| b.1).unwrap_or(1);
        Arc::new(Shared {
            root,
            plan,
            trace: Mutex::new(Vec::new()),
            op_counter: AtomicUsize::new(0),
            inflight: AtomicUsize::new(0),
            halted: AtomicBool::new(false),
            halt_notify: Notify::new(),
            sched: if race { Some(Mutex::new(SchedState::default())) } else { None },
            sched_wake: Notify::new(),
            ids: Mutex::new(HashMap::new()),
            occurrences: Mutex::new(HashMap::new()),
            rng: Mutex::new(seed.wrapping_mul(6364136223846793005).wrapping_add(1442695040888963407)),
        })
    }

    fn next_rand(&self) -> u64 {
        let mut g = self.rng.lock().unwrap();
        // xorshift64*
        let mut x = *g;
        x ^= x >> 12;
        x ^= x << 25;
        x ^= x >> 27;
        *g = x;
        x.wrapping_mul(2685821657736338717) >> 11
    }

    pub fn mark_done(&self, actor: usize) {
        if let Some(s) = &self.sched {
            s.lock().unwrap().done[actor] = true;
        }
        self.sched_wake.notify_waiters();
        self.sched_wake.notify_one();
    }

    /// Wait until no operation is in flight and none arrives for a while.
    pub async fn quiesce(&self) {
        let mut stable = 0;
        let mut last = self.op_counter.load(SeqCst);
        for _ in 0..10_000 {
            for _ in 0..5 {
                tokio::task::yield_now().await;
            }
            let now = self.op_counter.load(SeqCst);
            if self.inflight.load(SeqCst) == 0 && now == last {
                stable += 1;
                if stable >= 3 {
                    return;
                }
                // give tasks spawned onto worker threads (the lock release from Drop) time to start
                tokio::time::sleep(std::time::Duration::from_millis(3)).await;
            } else {
                stable = 0;
                last = now;
                tokio::time::sleep(std::time::Duration::from_millis(1)).await;
            }
        }
    }

    fn decide(&self, want: Option<usize>) -> Decision {
        let sched = self.sched.as_ref().expect("race mode");
        let mut st = sched.lock().unwrap();
        let pick_actor = match want {
            Some(a) => {
                if st.waiting.iter().any(|w| w.actor == a) {
                    Some(a)
                } else if st.done[a] {
                    return Decision::Skip;
                } else {
                    None
                }
            }
            None => {
                if st.waiting.iter().any(|w| w.actor == 0) {
                    Some(0)
                } else if st.done[0] && st.waiting.iter().any(|w| w.actor == 1) {
                    Some(1)
                } else if st.done[0] && st.done[1] && st.waiting.is_empty() {
                    if self.inflight.load(SeqCst) == 0 {
                        return Decision::Finished;
                    }
                    None
                } else {
                    None
                }
            }
        };
        match pick_actor {
            Some(a) => {
                // smallest path first, for determinism within a concurrent group
                let mut best: Option<usize> = None;
                for (i, w) in st.waiting.iter().enumerate() {
                    if w.actor == a && best.map_or(true, |b| w.path < st.waiting[b].path) {
                        best = Some(i);
                    }
                }
                let w = st.waiting.remove(best.unwrap());
                let c = st.completed[a];
                Decision::Release(a, w.tx, c)
            }
            None => Decision::Wait,
        }
    }

    fn completed(&self, a: usize) -> usize {
        self.sched.as_ref().expect("race mode").lock().unwrap().completed[a]
    }

    /// Drive a two-actor schedule: `schedule[i]` names the actor whose next
    /// operation runs i-th; when exhausted, actor 0 then actor 1 run to completion.
    pub async fn run_scheduler(self: Arc<Self>, schedule: Vec<usize>) {
        let mut pos = 0usize;
        loop {
            let want: Option<usize> = if pos < schedule.len() { Some(schedule[pos]) } else { None };
            let chosen = loop {
                // let siblings register
                for _ in 0..4 {
                    tokio::task::yield_now().await;
                }
                match self.decide(want) {
                    Decision::Finished => return,
                    Decision::Skip => break None,
                    Decision::Release(a, tx, c) => break Some((a, tx, c)),
                    Decision::Wait => {}
                }
                tokio::select! {
                    _ = self.sched_wake.notified() => {}
                    _ = tokio::time::sleep(std::time::Duration::from_millis(2)) => {}
                }
            };
            pos += 1;
            if let Some((a, tx, c)) = chosen {
                let _ = tx.send(());
                // wait for that op to complete
                while self.completed(a) <= c {
                    tokio::select! {
                        _ = self.sched_wake.notified() => {}
                        _ = tokio::time::sleep(std::time::Duration::from_millis(2)) => {}
                    }
                }
            }
        }
    }
}

enum Decision {
    Finished,
    Skip,
    Wait,
    Release(usize, oneshot::Sender<()>, usize),
}

#[derive(Debug)]
pub struct Icept {
    pub shared: Arc<Shared>,
    pub actor: usize,
}

fn summarize_reply(path: &str, reply: &HookReply) -> Value {
    match reply {
        HookReply::Unit => json!({"ok": true}),
        HookReply::Content(b) => json!({"ok": true, "content": decode_payload(path, b)}),
        HookReply::Listing(l) => {
            let mut names: Vec<Value> = l
                .iter()
                .map(|e| json!([e.name, if e.is_dir() { "d" } else { "f" }, e.len]))
                .collect();
            names.sort_by(|a, b| a[0].as_str().cmp(&b[0].as_str()));
            json!({"ok": true, "list": names})
        }
        HookReply::Meta(m) => json!({"ok": true, "meta": [format!("{:?}", m.kind), m.len]}),
        HookReply::Failed(k) => json!({"ok": false, "err": kind_str(*k)}),
    }
}

#[async_trait]
impl Interceptor for Icept {
    async fn before(&self, call: &HookCall) -> Option<ErrorKind> {
        let sh = &self.shared;
        if sh.halted.load(SeqCst) {
            std::future::pending::<()>().await;
        }
        // two-actor mode: wait for our turn
        if let Some(sched) = &sh.sched {
            let (tx, rx) = oneshot::channel();
            sched.lock().unwrap().waiting.push(Waiting {
                actor: self.actor,
                path: call.path.clone(),
                tx,
            });
            sh.sched_wake.notify_one();
            let _ = rx.await;
        }
        let idx = sh.op_counter.fetch_add(1, SeqCst);
        if let Some(ms) = sh.plan.delays.get(&idx) {
            tokio::time::sleep(std::time::Duration::from_millis(*ms)).await;
        }
        let verb = verb_str(call.verb);
        let nth = {
            let mut occ = sh.occurrences.lock().unwrap();
            let e = occ.entry((verb.to_string(), call.path.clone())).or_insert(0);
            let n = *e;
            *e += 1;
            n
        };
        let rule: Option<String> = sh
            .plan
            .rules
            .iter()
            .find(|(v, p, n, _)| v == verb && *p == call.path && *n == nth)
            .map(|r| r.3.clone());
        if sh.plan.crash_at == Some(idx) || rule.as_deref() == Some("crash") {
            sh.halted.store(true, SeqCst);
            let payload = match (&call.content, call.verb) {
                (Some(c), HookVerb::Write) => decode_payload(&call.path, c),
                _ => Value::Null,
            };
            sh.trace.lock().unwrap().push(json!({"i": idx, "actor": self.actor, "verb": verb, "path": call.path, "halt": "before", "payload": payload}));
            sh.halt_notify.notify_one();
            std::future::pending::<()>().await;
        }
        if sh.plan.crash_empty_at == Some(idx) || rule.as_deref() == Some("crash_empty") {
            sh.halted.store(true, SeqCst);
            let mut made = false;
            if call.verb == HookVerb::Write {
                let p = sh.root.join(&call.path);
                if !p.exists() {
                    made = std::fs::write(&p, b"").is_ok();
                }
            }
            let payload = match (&call.content, call.verb) {
                (Some(c), HookVerb::Write) => decode_payload(&call.path, c),
                _ => Value::Null,
            };
            sh.trace.lock().unwrap().push(json!({"i": idx, "actor": self.actor, "verb": verb, "path": call.path, "halt": "empty", "made": made, "payload": payload}));
            sh.halt_notify.notify_one();
            std::future::pending::<()>().await;
        }
        sh.inflight.fetch_add(1, SeqCst);
        sh.ids.lock().unwrap().insert(call.id as usize, idx);
        let verb_ok = sh.plan.only_verbs.is_empty() || sh.plan.only_verbs.iter().any(|v| v == verb);
        let mut inject = None;
        if verb_ok {
            if let Some(k) = sh.plan.faults.get(&idx) {
                inject = Some(*k);
            }
            if let Some((p, _seed)) = sh.plan.bernoulli {
                let r = sh.next_rand() % 1_000_000;
                if r < p {
                    let kinds = [ErrorKind::NotFound, ErrorKind::AlreadyExists, ErrorKind::PermissionDenied, ErrorKind::Other];
                    inject = Some(kinds[(sh.next_rand() % 4) as usize]);
                }
            }
        }
        if let Some(r) = &rule {
            inject = Some(kind_from_str(r));
        }
        for (v, sub, k) in &sh.plan.fault_match {
            if v == verb && call.path.contains(sub.as_str()) {
                inject = Some(*k);
            }
        }
        let payload = match (&call.content, call.verb) {
            (Some(c), HookVerb::Write) => decode_payload(&call.path, c),
            _ => Value::Null,
        };
        sh.trace.lock().unwrap().push(json!({
            "i": idx, "actor": self.actor, "verb": verb, "path": call.path,
            "payload": payload,
            "mode": call.mode.map(|m| format!("{m:?}")),
            "injected": inject.map(kind_str),
        }));
        inject
    }

    async fn after(&self, call: &HookCall, reply: &HookReply) {
        let sh = &self.shared;
        let idx = sh.ids.lock().unwrap().remove(&(call.id as usize));
        if let Some(idx) = idx {
            let summary = summarize_reply(&call.path, reply);
            let mut tr = sh.trace.lock().unwrap();
            if let Some(item) = tr.iter_mut().rev().find(|t| t["i"] == json!(idx)) {
                item["reply"] = summary;
            }
        }
        sh.inflight.fetch_sub(1, SeqCst);
        if let Some(sched) = &sh.sched {
            sched.lock().unwrap().completed[self.actor] += 1;
            sh.sched_wake.notify_one();
        }
        if sh.halted.load(SeqCst) {
            // the world has stopped: results of in-flight operations are never seen
            std::future::pending::<()>().await;
        }
    }
}
