//! cvh: correspondence / oracle harness for conserve.
//!   cvh eval  <in.jsonl> <out.jsonl>     one JSON query per line -> one JSON result per line
//!   cvh run   <cases.json> <out.jsonl> <scratch-dir>
//!             cases.json = [{"id":..., "steps":[...]}]; each case runs in a fresh
//!             workspace under <scratch-dir>; one JSON line per case is written.
mod eval;
mod icept;
mod reader;
mod steps;
mod tree;

use std::io::{BufRead, BufReader, BufWriter, Write};
use std::path::PathBuf;

use serde_json::{json, Value};

fn main() {
    let args: Vec<String> = std::env::args().collect();
    if args.len() < 4 {
        eprintln!("usage: cvh eval|run <in> <out> [scratch]");
        std::process::exit(2);
    }
    // Keep conserve's own panic messages out of the way but do not abort.
    std::panic::set_hook(Box::new(|_| {}));
    let mut out = BufWriter::new(std::fs::File::create(&args[3]).expect("create out"));
    match args[1].as_str() {
        "eval" => {
            let f = BufReader::new(std::fs::File::open(&args[2]).expect("open in"));
            for line in f.lines() {
                let line = line.expect("read");
                if line.trim().is_empty() {
                    continue;
                }
                let v: Value = serde_json::from_str(&line).expect("json");
                let r = std::panic::catch_unwind(|| eval::eval_one(&v)).unwrap_or(json!({"panic": true}));
                writeln!(out, "{r}").unwrap();
            }
        }
        "run" => {
            let scratch = PathBuf::from(args.get(4).cloned().unwrap_or_else(|| "/tmp/cvh-scratch".into()));
            let cases: Value = serde_json::from_reader(BufReader::new(std::fs::File::open(&args[2]).expect("open in"))).expect("json");
            std::fs::create_dir_all(&scratch).expect("scratch");
            for (n, case) in cases.as_array().expect("array").iter().enumerate() {
                let wsroot = scratch.join(format!("c{n}"));
                let _ = tree::remove_all(&wsroot);
                std::fs::create_dir_all(&wsroot).expect("ws");
                let ws = steps::Ws { root: wsroot.clone() };
                let mut results = Vec::new();
                for step in case.get("steps").and_then(Value::as_array).cloned().unwrap_or_default() {
                    let r = steps::run_step(&ws, &step);
                    results.push(r);
                }
                writeln!(out, "{}", json!({"id": case.get("id"), "results": results})).unwrap();
                out.flush().unwrap();
                if !case.get("keep").and_then(Value::as_bool).unwrap_or(false) {
                    let _ = tree::remove_all(&wsroot);
                }
            }
        }
        _ => {
            eprintln!("unknown command");
            std::process::exit(2);
        }
    }
    out.flush().unwrap();
}
