//! L1: direct evaluation of pure functions of conserve on given inputs.
use std::cmp::Ordering;

use conserve::{Apath, Exclude};
use serde_json::{json, Value};

fn apath_unchecked(s: &str) -> Apath {
    // Deserialization performs no validation, so any string can be compared.
    serde_json::from_value::<Apath>(json!(s)).expect("apath from json")
}

pub fn eval_one(v: &Value) -> Value {
    let s = |k: &str| v.get(k).and_then(Value::as_str).unwrap_or("").to_string();
    match v.get("fn").and_then(Value::as_str).unwrap_or("") {
        "cmp" => {
            let a = apath_unchecked(&s("a"));
            let b = apath_unchecked(&s("b"));
            json!(match a.cmp(&b) {
                Ordering::Less => 0,
                Ordering::Equal => 1,
                Ordering::Greater => 2,
            })
        }
        "valid" => json!(Apath::is_valid(&s("a")) as u8),
        "prefix" => {
            let a = apath_unchecked(&s("a"));
            let b = apath_unchecked(&s("b"));
            json!(a.is_prefix_of(&b) as u8)
        }
        "append" => {
            let a = apath_unchecked(&s("a"));
            json!(a.append(&s("c")).to_string())
        }
        "parse" => json!(s("a").parse::<Apath>().is_ok() as u8),
        "matrix" => {
            // all ordered pairs (i, j) of the given strings, row-major:
            // code = cmp * 2 + is_prefix_of(i, j); then one validity bit per string
            let paths: Vec<String> = v
                .get("paths")
                .and_then(Value::as_array)
                .map(|a| a.iter().filter_map(|x| x.as_str().map(String::from)).collect())
                .unwrap_or_default();
            let aps: Vec<Apath> = paths.iter().map(|p| apath_unchecked(p)).collect();
            let lo = v.get("row_lo").and_then(Value::as_u64).unwrap_or(0) as usize;
            let hi = v.get("row_hi").and_then(Value::as_u64).map(|x| x as usize).unwrap_or(aps.len());
            let mut codes = Vec::with_capacity((hi - lo) * aps.len());
            for a in &aps[lo..hi] {
                for b in &aps {
                    let c = match a.cmp(b) {
                        Ordering::Less => 0u8,
                        Ordering::Equal => 1,
                        Ordering::Greater => 2,
                    };
                    codes.push(c * 2 + a.is_prefix_of(b) as u8);
                }
            }
            let valid: Vec<u8> = paths.iter().map(|p| Apath::is_valid(p) as u8).collect();
            json!({"codes": codes, "valid": valid})
        }
        "excl" => {
            let pats: Vec<String> = v
                .get("pats")
                .and_then(Value::as_array)
                .map(|a| a.iter().filter_map(|x| x.as_str().map(String::from)).collect())
                .unwrap_or_default();
            match Exclude::from_strings(pats.iter()) {
                Err(e) => json!({"err": format!("{e}")}),
                Ok(ex) => {
                    let paths = v.get("paths").and_then(Value::as_array).cloned().unwrap_or_default();
                    Value::Array(
                        paths
                            .iter()
                            .map(|p| {
                                let a = apath_unchecked(p.as_str().unwrap_or("/"));
                                json!(ex.matches(&a) as u8)
                            })
                            .collect(),
                    )
                }
            }
        }
        other => json!({"err": format!("unknown fn {other}")}),
    }
}
